//! C25 — log collection delivers every message sent before collection.
//! Shape S: stateless DFS over all schedules of a small multi-threaded harness
//! running the UNMODIFIED `utils/log.rs` (included by path) against a
//! scheduler-controlled channel (crate `crossbeam-channel` v0.0.1 in this
//! workspace). Thread creation and join are made visible by interposing
//! `pthread_create` / `pthread_join` in this binary.

#![allow(dead_code)]

mod prelude {
    pub use anyhow::Context as _;
    pub use anyhow::{anyhow, Error};
    pub use apint::Width;
    pub use cwe_checker_lib::intermediate_representation::{Bitvector, ByteSize, Term, Tid};
    pub use serde::{Deserialize, Serialize};
}

#[path = "/repo/src/cwe_checker_lib/src/utils/log.rs"]
mod log;

use crossbeam_channel::sched::{self, Gate, Report};
use cwe_checker_lib::intermediate_representation::Tid;
use log::{CweWarning, LogMessage, LogThread, LogThreadMsg};
use mcx::Ctx;
use serde::{Deserialize, Serialize};
use serde_json::json;
use std::collections::BTreeMap;
use std::ffi::c_void;

// ---------------------------------------------------------------- pthread interposition

type StartFn = extern "C" fn(*mut c_void) -> *mut c_void;
type CreateFn = unsafe extern "C" fn(*mut libc::pthread_t, *const libc::pthread_attr_t, StartFn, *mut c_void) -> libc::c_int;
type JoinFn = unsafe extern "C" fn(libc::pthread_t, *mut *mut c_void) -> libc::c_int;

struct Tramp {
    f: StartFn,
    arg: *mut c_void,
    id: usize,
}
extern "C" fn trampoline(p: *mut c_void) -> *mut c_void {
    let t = unsafe { Box::from_raw(p as *mut Tramp) };
    sched::thread_started(t.id);
    let r = (t.f)(t.arg);
    sched::thread_finished();
    r
}

fn real_create() -> CreateFn {
    unsafe { std::mem::transmute(libc::dlsym(libc::RTLD_NEXT, c"pthread_create".as_ptr())) }
}
fn real_join() -> JoinFn {
    unsafe { std::mem::transmute(libc::dlsym(libc::RTLD_NEXT, c"pthread_join".as_ptr())) }
}

/// # Safety
/// Same contract as libc's pthread_create.
#[no_mangle]
pub unsafe extern "C" fn pthread_create(native: *mut libc::pthread_t, attr: *const libc::pthread_attr_t, f: StartFn, arg: *mut c_void) -> libc::c_int {
    let real = real_create();
    if sched::is_managed() {
        let id = sched::thread_created();
        let t = Box::into_raw(Box::new(Tramp { f, arg, id }));
        let rc = real(native, attr, trampoline, t as *mut c_void);
        if rc == 0 {
            sched::set_native(id, *native as u64);
        }
        rc
    } else {
        real(native, attr, f, arg)
    }
}

/// # Safety
/// Same contract as libc's pthread_join.
#[no_mangle]
pub unsafe extern "C" fn pthread_join(native: libc::pthread_t, ret: *mut *mut c_void) -> libc::c_int {
    if sched::is_managed() {
        if let Some(t) = sched::id_of_native(native as u64) {
            sched::gate(Gate::Join { target: t });
        }
    }
    real_join()(native, ret)
}

// ---------------------------------------------------------------- harness family

#[derive(Serialize, Deserialize, Clone, Copy, Debug, PartialEq, Eq, PartialOrd, Ord)]
enum Msg {
    L1,  // log without address
    L2,  // log without address
    LA,  // log at address A
    LA2, // another log at address A
    WA1, // warning at address A
    WA2, // warning at address A, different payload
    WB,  // warning at address B
}
const ALPHABET_FULL: [Msg; 7] = [Msg::L1, Msg::L2, Msg::LA, Msg::LA2, Msg::WA1, Msg::WA2, Msg::WB];
const ALPHABET_QUICK: [Msg; 4] = [Msg::L1, Msg::LA, Msg::WA1, Msg::WA2];

#[derive(Serialize, Deserialize, Clone, Copy, Debug, PartialEq, Eq)]
enum Finish {
    Collect,
    Drop,
}

#[derive(Serialize, Deserialize, Clone, Debug)]
struct Config {
    /// messages main sends itself (the CLI's single-producer shape)
    main_msgs: Vec<Msg>,
    producers: Vec<Vec<Msg>>,
    join_before_collect: bool,
    /// a producer that keeps its Sender and sends one message after collection returned
    late_sender: bool,
    finish: Finish,
}

#[derive(Serialize, Deserialize, Clone, Debug)]
struct Case {
    config: Config,
    schedule: Vec<usize>,
}

fn token(sender: &str, k: usize, m: Msg) -> String {
    format!("#{sender}_{k}_{m:?}#")
}
fn build(m: Msg, tok: &str) -> LogThreadMsg {
    let at = |a: &str| {
        let mut t = Tid::new(format!("instr_{a}"));
        t.address = a.to_string();
        t
    };
    match m {
        Msg::L1 | Msg::L2 => LogMessage::new_info(tok).into(),
        Msg::LA | Msg::LA2 => LogMessage::new_info(tok).location(at("A")).into(),
        Msg::WA1 | Msg::WA2 => CweWarning::new("CWE000", "0.1", tok).addresses(vec!["A".to_string()]).into(),
        Msg::WB => CweWarning::new("CWE000", "0.1", tok).addresses(vec!["B".to_string()]).into(),
    }
}
fn address_of(m: Msg) -> Option<&'static str> {
    match m {
        Msg::L1 | Msg::L2 => None,
        Msg::LA | Msg::LA2 | Msg::WA1 | Msg::WA2 => Some("A"),
        Msg::WB => Some("B"),
    }
}
fn is_warning(m: Msg) -> bool {
    matches!(m, Msg::WA1 | Msg::WA2 | Msg::WB)
}

#[derive(Clone, Debug, PartialEq, Eq, Default)]
struct Outcome {
    collected: bool,
    logs: Vec<String>,
    cwes: Vec<String>,
}

/// The multi-threaded program under exploration. Runs as managed thread 0.
fn body(cfg: &Config) -> Outcome {
    let lt = LogThread::spawn(LogThread::collect_and_deduplicate);
    let mut handles = Vec::new();
    for (pi, msgs) in cfg.producers.iter().enumerate() {
        let tx = lt.get_msg_sender();
        let msgs = msgs.clone();
        handles.push(std::thread::spawn(move || {
            for (k, m) in msgs.iter().enumerate() {
                let _ = tx.send(build(*m, &token(&format!("p{pi}"), k, *m)));
            }
        }));
    }
    let late = if cfg.late_sender {
        let tx = lt.get_msg_sender();
        let (sig_tx, sig_rx) = crossbeam_channel::unbounded::<u8>();
        let h = std::thread::spawn(move || {
            let _ = sig_rx.recv();
            let _ = tx.send(build(Msg::WA2, &token("late", 0, Msg::WA2)));
        });
        Some((sig_tx, h))
    } else {
        None
    };
    {
        let tx = lt.get_msg_sender();
        for (k, m) in cfg.main_msgs.iter().enumerate() {
            let _ = tx.send(build(*m, &token("main", k, *m)));
        }
    }
    if cfg.join_before_collect {
        for h in handles.drain(..) {
            let _ = h.join();
        }
    }
    sched::mark("collect-begin");
    let mut out = Outcome::default();
    match cfg.finish {
        Finish::Collect => {
            let (logs, cwes) = lt.collect();
            out.collected = true;
            out.logs = logs.into_iter().map(|l| l.text).collect();
            out.cwes = cwes.into_iter().map(|c| c.description).collect();
        }
        Finish::Drop => drop(lt),
    }
    sched::mark("collect-end");
    if let Some((sig_tx, h)) = late {
        let _ = sig_tx.send(1);
        let _ = h.join();
    }
    for h in handles {
        let _ = h.join();
    }
    out
}

const HORIZON: usize = 400;

fn run_one(cfg: &Config, prefix: &[usize]) -> (Report, Result<Outcome, String>) {
    sched::begin(prefix.to_vec(), HORIZON);
    let out = mcx::catch(|| body(cfg));
    let report = sched::end();
    (report, out)
}

// ---------------------------------------------------------------- oracle

fn parse_token(desc: &str) -> Option<(String, Msg)> {
    let a = desc.find('#')?;
    let b = desc[a + 1..].find('#')? + a + 1;
    let tok = &desc[a..=b];
    let name = tok.trim_matches('#').rsplit('_').next()?;
    let m = ALPHABET_FULL.iter().copied().find(|m| format!("{m:?}") == name)?;
    Some((tok.to_string(), m))
}

/// Returns a list of (class, explanation) for everything the statement forbids.
fn judge(cfg: &Config, report: &Report, outcome: &Result<Outcome, String>) -> Vec<(String, String)> {
    let mut bad = Vec::new();
    if let Some(d) = &report.deadlock {
        bad.push(("deadlock".to_string(), d.clone()));
    }
    if report.horizon_hit {
        bad.push(("no termination within the horizon".to_string(), format!("more than {HORIZON} decisions")));
    }
    let out = match outcome {
        Err(p) => {
            bad.push((format!("panic {}", mcx::panic_site(p)), p.clone()));
            return bad;
        }
        Ok(o) => o,
    };
    if cfg.finish != Finish::Collect || !bad.is_empty() {
        return bad;
    }
    let mark = report.marks.iter().find(|(l, _)| l == "collect-begin").map(|(_, s)| *s).unwrap_or(0);
    // sends on the log channel (channel 0), in grant order
    let mut sends: Vec<(u64, String, Msg)> = Vec::new();
    for ev in &report.trace {
        if let Gate::Send { chan: 0, msg } = &ev.gate {
            if let Some((tok, m)) = parse_token(msg) {
                sends.push((ev.step, tok, m));
            }
        }
    }
    let required: Vec<&(u64, String, Msg)> = sends.iter().filter(|(s, ..)| *s <= mark).collect();
    let sent_tokens: Vec<&String> = sends.iter().map(|(_, t, _)| t).collect();
    // nothing invented
    for t in out.logs.iter().chain(out.cwes.iter()) {
        if !sent_tokens.contains(&t) {
            bad.push(("returned a message that was never sent".to_string(), t.clone()));
        }
    }
    // address-less logs: all required ones present, in send order
    let req_general: Vec<&String> = required.iter().filter(|(_, _, m)| address_of(*m).is_none()).map(|(_, t, _)| t).collect();
    let got_general: Vec<&String> = out.logs.iter().filter(|t| req_general.contains(t)).collect();
    if got_general != req_general {
        let missing: Vec<&&String> = req_general.iter().filter(|t| !out.logs.contains(t)).collect();
        if !missing.is_empty() {
            bad.push(("address-less log sent before collection is missing".to_string(), format!("missing {missing:?}; returned logs {:?}", out.logs)));
        } else {
            bad.push(("address-less logs out of send order".to_string(), format!("sent {req_general:?}; returned {got_general:?}")));
        }
    }
    // per address: warnings
    let mut addrs: BTreeMap<&str, ()> = BTreeMap::new();
    for (_, _, m) in &sends {
        if let Some(a) = address_of(*m) {
            addrs.insert(a, ());
        }
    }
    for a in addrs.keys() {
        for warnings in [true, false] {
            let req: Vec<&String> = required.iter().filter(|(_, _, m)| address_of(*m) == Some(*a) && is_warning(*m) == warnings).map(|(_, t, _)| t).collect();
            if req.is_empty() {
                continue;
            }
            let later: Vec<&String> = sends.iter().filter(|(s, _, m)| *s > mark && address_of(*m) == Some(*a) && is_warning(*m) == warnings).map(|(_, t, _)| t).collect();
            let all_at: Vec<&String> = sends.iter().filter(|(_, _, m)| address_of(*m) == Some(*a) && is_warning(*m) == warnings).map(|(_, t, _)| t).collect();
            let got: Vec<&String> = if warnings { out.cwes.iter().filter(|t| all_at.contains(t)).collect() } else { out.logs.iter().filter(|t| all_at.contains(t)).collect() };
            let last = *req.last().unwrap();
            if warnings {
                // exactly one warning kept for the address: the last one sent before collection
                // was requested (or one sent even later, which the statement leaves open)
                if got.len() != 1 || !(got[0] == last || later.contains(&got[0])) {
                    let class = if got.is_empty() { "warning sent before collection is missing" } else if got.len() > 1 { "more than one warning kept for one address" } else { "kept warning is not the last one sent for its address" };
                    bad.push((class.to_string(), format!("address {a}: sent before collection {req:?}, later {later:?}, returned {got:?}")));
                }
            } else {
                // logs with an address: the last one sent before collection (or a later one) must be there
                if !got.iter().any(|g| *g == last || later.contains(g)) {
                    bad.push(("log with address sent before collection is missing".to_string(), format!("address {a}: sent before collection {req:?}, returned {got:?}")));
                }
            }
        }
    }
    bad
}

// ---------------------------------------------------------------- explorer

#[derive(Serialize, Deserialize, Default, Clone, Debug)]
struct Stats {
    schedules: u64,
    gates: u64,
    max_decisions: u64,
    max_threads: u64,
    replays_checked: u64,
    distinct_results: Vec<String>,
    violations: Vec<(String, String, Case)>,
    capped: bool,
    nondeterminism: Option<String>,
}

fn preemptions(decisions: &[sched::Decision], upto: usize) -> u32 {
    decisions[..upto].iter().filter(|d| d.last_enabled && d.chosen != 0).count() as u32
}

fn explore(cfg: &Config, bound: Option<u32>, max_schedules: u64) -> Stats {
    let mut st = Stats::default();
    let mut results: std::collections::BTreeSet<String> = Default::default();
    let mut stack: Vec<Vec<usize>> = vec![vec![]];
    while let Some(prefix) = stack.pop() {
        if st.schedules >= max_schedules {
            st.capped = true;
            break;
        }
        let (report, outcome) = run_one(cfg, &prefix);
        st.schedules += 1;
        st.gates += report.trace.len() as u64;
        st.max_decisions = st.max_decisions.max(report.decisions.len() as u64);
        st.max_threads = st.max_threads.max(report.threads as u64);
        if let Some(d) = &report.divergence {
            st.nondeterminism = Some(format!("divergence while replaying prefix {prefix:?}: {d}"));
            break;
        }
        // the prefix must have been followed exactly
        for (i, c) in prefix.iter().enumerate() {
            if report.decisions.get(i).map(|d| d.chosen) != Some(*c) {
                st.nondeterminism = Some(format!("prefix {prefix:?} not reproduced at decision {i}"));
            }
        }
        if st.nondeterminism.is_some() {
            break;
        }
        let full: Vec<usize> = report.decisions.iter().map(|d| d.chosen).collect();
        if st.schedules % 50 == 1 {
            // same schedule twice => identical observations
            let (r2, o2) = run_one(cfg, &full);
            st.replays_checked += 1;
            if r2.trace != report.trace || o2 != outcome {
                st.nondeterminism = Some(format!("schedule {full:?} gave different observations when replayed"));
                break;
            }
        }
        results.insert(format!("{outcome:?}"));
        for (class, why) in judge(cfg, &report, &outcome) {
            if st.violations.len() < 20 {
                st.violations.push((class, why, Case { config: cfg.clone(), schedule: full.clone() }));
            }
        }
        for i in prefix.len()..report.decisions.len() {
            let d = &report.decisions[i];
            for alt in 1..d.enabled.len() {
                if let Some(b) = bound {
                    let cost = preemptions(&report.decisions, i) + (d.last_enabled as u32);
                    if cost > b {
                        continue;
                    }
                }
                let mut p: Vec<usize> = full[..i].to_vec();
                p.push(alt);
                stack.push(p);
            }
        }
    }
    st.distinct_results = results.into_iter().collect();
    st
}

// ---------------------------------------------------------------- configuration family

fn seqs(alpha: &[Msg], max_len: usize) -> Vec<Vec<Msg>> {
    let mut out = vec![vec![]];
    let mut layer = vec![vec![]];
    for _ in 0..max_len {
        let mut next = Vec::new();
        for s in &layer {
            for m in alpha {
                let mut t: Vec<Msg> = s.clone();
                t.push(*m);
                next.push(t);
            }
        }
        out.extend(next.iter().cloned());
        layer = next;
    }
    out
}

fn configs(thorough: bool) -> Vec<Config> {
    let alpha: &[Msg] = if thorough { &ALPHABET_FULL } else { &ALPHABET_QUICK };
    let mut out = Vec::new();
    // (a) the CLI's shape: main is the single producer, then collect / drop
    for s in seqs(alpha, if thorough { 3 } else { 2 }) {
        for finish in [Finish::Collect, Finish::Drop] {
            out.push(Config { main_msgs: s.clone(), producers: vec![], join_before_collect: true, late_sender: false, finish });
        }
    }
    // (b) one producer thread with <= 2 messages, joined or not before collection
    for s in seqs(alpha, 2) {
        if s.is_empty() {
            continue;
        }
        for join in [true, false] {
            out.push(Config { main_msgs: vec![], producers: vec![s.clone()], join_before_collect: join, late_sender: false, finish: Finish::Collect });
        }
    }
    // (c) two producers (unordered pairs), <= 2 messages each (quick: <= 1 + <= 2)
    let all = seqs(alpha, 2);
    for (i, a) in all.iter().enumerate() {
        for b in all.iter().skip(i) {
            if a.is_empty() || b.is_empty() {
                continue;
            }
            if !thorough && (a.len() + b.len() > 3 || (a.len() + b.len() == 3 && (a.contains(&Msg::LA) || b.contains(&Msg::LA)))) {
                continue;
            }
            for join in [true, false] {
                out.push(Config { main_msgs: vec![], producers: vec![a.clone(), b.clone()], join_before_collect: join, late_sender: false, finish: Finish::Collect });
            }
        }
    }
    // (d) a producer plus main sending, and a late sender that outlives collection
    for s in seqs(alpha, 1) {
        for t in seqs(alpha, 1) {
            for late in [true, false] {
                for finish in [Finish::Collect, Finish::Drop] {
                    if !late && finish == Finish::Collect && !thorough {
                        continue;
                    }
                    out.push(Config { main_msgs: t.clone(), producers: if s.is_empty() { vec![] } else { vec![s.clone()] }, join_before_collect: false, late_sender: late, finish });
                }
            }
        }
    }
    out
}

// ---------------------------------------------------------------- sequential conformance with the real library

/// Feed the same history through the real `cwe_checker_lib::utils::log::LogThread`
/// (real crossbeam channel, real threads, single producer) and through the shim build.
fn conformance(cfg: &Config) -> Result<(), String> {
    use cwe_checker_lib::utils::log as real;
    let lt = real::LogThread::spawn(real::LogThread::collect_and_deduplicate);
    let tx = lt.get_msg_sender();
    for (k, m) in cfg.main_msgs.iter().enumerate() {
        let tok = token("main", k, *m);
        let at = |a: &str| {
            let mut t = Tid::new(format!("instr_{a}"));
            t.address = a.to_string();
            t
        };
        let msg: real::LogThreadMsg = match m {
            Msg::L1 | Msg::L2 => real::LogMessage::new_info(&tok).into(),
            Msg::LA | Msg::LA2 => real::LogMessage::new_info(&tok).location(at("A")).into(),
            Msg::WA1 | Msg::WA2 => real::CweWarning::new("CWE000", "0.1", &tok).addresses(vec!["A".to_string()]).into(),
            Msg::WB => real::CweWarning::new("CWE000", "0.1", &tok).addresses(vec!["B".to_string()]).into(),
        };
        let _ = tx.send(msg);
    }
    let (logs, cwes) = lt.collect();
    let real_out = Outcome { collected: true, logs: logs.into_iter().map(|l| l.text).collect(), cwes: cwes.into_iter().map(|c| c.description).collect() };
    let (_, shim_out) = run_one(cfg, &[]);
    match shim_out {
        Ok(o) if o == real_out => Ok(()),
        other => Err(format!("real library returned {real_out:?}, scheduler-controlled build returned {other:?}")),
    }
}

// ---------------------------------------------------------------- main

fn worker(args: &[String]) {
    // --worker <bound|none> <max_schedules> <json list of configs>
    let bound = args[0].parse::<u32>().ok();
    let max: u64 = args[1].parse().unwrap();
    let cfgs: Vec<Config> = serde_json::from_str(&args[2]).unwrap();
    let mut out = Vec::new();
    for c in cfgs {
        let st = explore(&c, bound, max);
        out.push((c, st));
    }
    println!("{}", serde_json::to_string(&out).unwrap());
}

fn main() {
    let argv: Vec<String> = std::env::args().collect();
    if argv.get(1).map(|s| s.as_str()) == Some("--worker") {
        mcx::install_quiet_panic_hook();
        worker(&argv[2..]);
        return;
    }
    let ctx = Ctx::new("C25");
    if let Some(c) = ctx.replay_case() {
        let case: Case = serde_json::from_value(c.clone()).unwrap_or_else(|e| mcx::machinery(&format!("bad case: {e}")));
        let (report, outcome) = run_one(&case.config, &case.schedule);
        ctx.add_transitions(1);
        println!("schedule {:?}", case.schedule);
        for ev in &report.trace {
            println!("  step {:3} T{} {:?}", ev.step, ev.thread, ev.gate);
        }
        println!("marks {:?}\noutcome {:?}", report.marks, outcome);
        for (class, why) in judge(&case.config, &report, &outcome) {
            ctx.violation(class, c.clone(), json!({"why": why}));
        }
        ctx.finish("replay of one schedule", false);
    }
    let thorough = ctx.thorough();
    let cfgs = configs(thorough);
    let max_per_config: u64 = if thorough { 400_000 } else { 20_000 };
    // no preemption bound: every schedule; the bound is only used if a config would exceed the cap
    let exe = std::env::current_exe().unwrap();
    let nthreads = mcx::num_threads();
    let chunks: Vec<Vec<Config>> = {
        let per = ((cfgs.len() + nthreads * 4 - 1) / (nthreads * 4)).max(1);
        cfgs.chunks(per).map(|c| c.to_vec()).collect()
    };
    let results: std::sync::Mutex<Vec<(Config, Stats)>> = std::sync::Mutex::new(Vec::new());
    let hung: std::sync::Mutex<Vec<Vec<Config>>> = std::sync::Mutex::new(Vec::new());
    mcx::par_for(chunks.len() as u64, 1, |i| {
        let chunk = &chunks[i as usize];
        // worker output goes to a file so that the parent can enforce a wall-clock limit
        let out_dir = format!("{}/work", mcx::out_root());
        std::fs::create_dir_all(&out_dir).ok();
        let out_path = format!("{out_dir}/c25-worker-{}-{i}.out", std::process::id());
        let file = std::fs::File::create(&out_path).unwrap_or_else(|e| mcx::machinery(&format!("cannot create {out_path}: {e}")));
        let mut child = std::process::Command::new(&exe)
            .arg("--worker")
            .arg("none")
            .arg(max_per_config.to_string())
            .arg(serde_json::to_string(chunk).unwrap())
            .stdout(file)
            .stderr(std::process::Stdio::null())
            .spawn()
            .unwrap_or_else(|e| mcx::machinery(&format!("cannot start worker: {e}")));
        let limit = std::time::Duration::from_secs(if thorough { 3600 } else { 600 });
        let started = std::time::Instant::now();
        let status = loop {
            match child.try_wait() {
                Ok(Some(st)) => break Some(st),
                Ok(None) => {
                    if started.elapsed() > limit {
                        let _ = child.kill();
                        let _ = child.wait();
                        break None;
                    }
                    std::thread::sleep(std::time::Duration::from_millis(50));
                }
                Err(e) => mcx::machinery(&format!("waiting for worker failed: {e}")),
            }
        };
        let text = std::fs::read_to_string(&out_path).unwrap_or_default();
        let _ = std::fs::remove_file(&out_path);
        match status {
            None => {
                // a thread of the program under test runs forever without reaching a gate, or the process is stuck
                hung.lock().unwrap().push(chunk.clone());
                return;
            }
            Some(st) if !st.success() => mcx::machinery(&format!("worker failed: {st}")),
            _ => (),
        }
        let line = text.lines().last().unwrap_or("");
        let parsed: Vec<(Config, Stats)> = serde_json::from_str(line).unwrap_or_else(|e| mcx::machinery(&format!("bad worker output: {e}: {line}")));
        results.lock().unwrap().extend(parsed);
    });
    let results = results.into_inner().unwrap();
    for chunk in hung.into_inner().unwrap() {
        ctx.violation("exploration does not terminate (worker exceeded its wall-clock limit)", json!({"config": chunk.first(), "schedule": []}), json!({"configs_in_chunk": chunk}));
    }
    let mut capped = 0u64;
    for (cfg, st) in &results {
        ctx.add_states(st.schedules);
        ctx.add_transitions(st.gates);
        ctx.stat("schedules", st.schedules);
        ctx.stat("configs", 1);
        ctx.stat_max("max_decisions_in_one_schedule", st.max_decisions);
        ctx.stat_max("max_threads", st.max_threads);
        ctx.stat_max("max_schedules_of_one_config", st.schedules);
        ctx.stat("determinism_replays", st.replays_checked);
        if cfg.producers.len() + cfg.late_sender as usize >= 1 && st.schedules > 1 {
            ctx.add_nontrivial(st.schedules);
        }
        if st.distinct_results.len() > 1 {
            ctx.stat("configs_with_more_than_one_result", 1);
        }
        for r in &st.distinct_results {
            ctx.outcome(r);
        }
        if let Some(n) = &st.nondeterminism {
            mcx::machinery(&format!("harness does not own all nondeterminism: {n} (config {cfg:?})"));
        }
        if st.capped {
            capped += 1;
        }
        for (class, why, case) in &st.violations {
            ctx.violation(class.clone(), serde_json::to_value(case).unwrap(), json!({"why": why, "config": cfg}));
        }
        ctx.sample(|| json!({"config": cfg, "schedules": st.schedules, "distinct_results": st.distinct_results.len()}));
    }
    if capped > 0 {
        ctx.cap_hit(&format!("{capped} configurations hit the cap of {max_per_config} schedules"));
    }
    // sequential conformance of the scheduler-controlled build with the real library.
    // It runs on real threads with the real channel, so a defect that makes collect() hang would hang
    // the harness: run it on a watchdog-guarded thread.
    let conf_cfgs: Vec<Config> = cfgs.iter().filter(|c| c.producers.is_empty() && !c.late_sender && c.finish == Finish::Collect).cloned().collect();
    let (done_tx, done_rx) = std::sync::mpsc::channel::<Result<u64, (String, Config)>>();
    std::thread::spawn(move || {
        let mut n = 0u64;
        for c in conf_cfgs.iter() {
            if let Err(e) = conformance(c) {
                let _ = done_tx.send(Err((e, c.clone())));
                return;
            }
            n += 1;
        }
        let _ = done_tx.send(Ok(n));
    });
    let mut conf = 0u64;
    match done_rx.recv_timeout(std::time::Duration::from_secs(120)) {
        Ok(Ok(n)) => conf = n,
        Ok(Err((e, c))) => mcx::machinery(&format!("conformance with the real library failed: {e} (config {c:?})")),
        Err(_) => ctx.violation(
            "real library: collect() does not return (sequential run with a live sender clone)",
            json!({"config": {"main_msgs": [], "producers": [], "join_before_collect": true, "late_sender": false, "finish": "Collect"}, "schedule": []}),
            json!({"why": "LogThread::collect() of the real library did not return within 120 s in a single-producer run in which a cloned Sender is still alive"}),
        ),
    }
    ctx.set("traces_validated_against_real_library", json!(conf));
    ctx.set("bounds", json!({"configs": cfgs.len(), "alphabet": if thorough { format!("{ALPHABET_FULL:?}") } else { format!("{ALPHABET_QUICK:?}") }, "threads": "main + collector + up to 2 producers (+ late sender)", "messages_per_sender": "<= 2 (main alone: <= 3 thorough)", "preemption_bound": "none (all schedules)", "cap_per_config": max_per_config, "horizon_decisions": HORIZON}));
    ctx.assume("crossbeam's unbounded channel is a linearizable FIFO with the usual disconnect semantics (the shim models exactly that); checked sequentially against the real library");
    ctx.assume("'send completed before collection was requested' = the send's gate was granted before main entered collect(); sends granted later are neither required nor forbidden");
    ctx.assume("std::thread spawn/join are the only other synchronisation in log.rs; both are made visible by pthread interposition");
    ctx.finish("one state per explored schedule (complete grant sequence) of every configuration of the harness family; transitions = granted gates executed on the real log.rs; non-trivial = schedules of configurations with at least one concurrent sender", true);
}
