/* LD_PRELOAD shim for C23: owns the entropy that std's RandomState (HashMap /
 * HashSet keys) draws from the OS.  With VERIF_HASH_SEED=<n> in the environment
 * getrandom()/getentropy() return a byte stream that is a pure function of n
 * (splitmix64), so every hash-map iteration order in the process is a
 * deterministic, replayable function of the seed.  Without the variable the
 * real system call is used.
 *
 * build: cc -O2 -shared -fPIC -o /verif/work/preload/getrandom.so getrandom.c
 */
#define _GNU_SOURCE
#include <stddef.h>
#include <stdlib.h>
#include <errno.h>
#include <unistd.h>
#include <sys/types.h>
#include <sys/syscall.h>

static unsigned long long splitmix64(unsigned long long *s) {
    unsigned long long z = (*s += 0x9e3779b97f4a7c15ULL);
    z = (z ^ (z >> 30)) * 0xbf58476d1ce4e5b9ULL;
    z = (z ^ (z >> 27)) * 0x94d049bb133111ebULL;
    return z ^ (z >> 31);
}

static int owned_fill(void *buf, size_t len) {
    const char *s = getenv("VERIF_HASH_SEED");
    if (!s || !*s) return 0;
    /* every call restarts the stream: the result depends on the seed only,
     * not on how many times entropy was requested before */
    unsigned long long state = strtoull(s, NULL, 10) * 0x2545f4914f6cdd1dULL + 0x1234567ULL;
    unsigned char *p = (unsigned char *)buf;
    size_t i = 0;
    while (i < len) {
        unsigned long long v = splitmix64(&state);
        for (int k = 0; k < 8 && i < len; k++, i++) p[i] = (unsigned char)(v >> (8 * k));
    }
    return 1;
}

ssize_t getrandom(void *buf, size_t buflen, unsigned int flags) {
    if (owned_fill(buf, buflen)) return (ssize_t)buflen;
    return syscall(SYS_getrandom, buf, buflen, flags);
}

int getentropy(void *buf, size_t len) {
    if (len > 256) { errno = EIO; return -1; }
    if (owned_fill(buf, len)) return 0;
    return syscall(SYS_getrandom, buf, len, 0) == (ssize_t)len ? 0 : -1;
}
