//! Scheduler-controlled FIFO channel with the API subset of crossbeam-channel
//! that `utils/log.rs` uses (`unbounded`, `Sender::{send, clone, drop}`,
//! `Receiver::{recv, try_recv, try_iter, iter}`), plus the controller (`sched`).
//!
//! Every channel operation is a *gate*: the calling thread parks until the
//! controller grants it. Exactly one managed thread runs at a time; a decision
//! is taken only when no managed thread is running, so an execution is a
//! deterministic function of the sequence of decisions.

pub mod sched;

use std::collections::VecDeque;
use std::sync::{Arc, Mutex};

struct Chan<T> {
    id: usize,
    queue: Mutex<VecDeque<T>>,
}

pub struct Sender<T> {
    chan: Arc<Chan<T>>,
}
pub struct Receiver<T> {
    chan: Arc<Chan<T>>,
}

#[derive(PartialEq, Eq, Clone, Copy)]
pub struct SendError<T>(pub T);
impl<T> std::fmt::Debug for SendError<T> {
    fn fmt(&self, f: &mut std::fmt::Formatter<'_>) -> std::fmt::Result {
        write!(f, "SendError(..)")
    }
}
impl<T> std::fmt::Display for SendError<T> {
    fn fmt(&self, f: &mut std::fmt::Formatter<'_>) -> std::fmt::Result {
        write!(f, "sending on a disconnected channel")
    }
}
impl<T> std::error::Error for SendError<T> {}

#[derive(PartialEq, Eq, Clone, Copy, Debug)]
pub struct RecvError;
impl std::fmt::Display for RecvError {
    fn fmt(&self, f: &mut std::fmt::Formatter<'_>) -> std::fmt::Result {
        write!(f, "receiving on an empty and disconnected channel")
    }
}
impl std::error::Error for RecvError {}

#[derive(PartialEq, Eq, Clone, Copy, Debug)]
pub enum TryRecvError {
    Empty,
    Disconnected,
}
impl std::fmt::Display for TryRecvError {
    fn fmt(&self, f: &mut std::fmt::Formatter<'_>) -> std::fmt::Result {
        write!(f, "{self:?}")
    }
}
impl std::error::Error for TryRecvError {}

pub fn unbounded<T>() -> (Sender<T>, Receiver<T>) {
    let id = sched::new_channel();
    let chan = Arc::new(Chan { id, queue: Mutex::new(VecDeque::new()) });
    (Sender { chan: chan.clone() }, Receiver { chan })
}

impl<T: std::fmt::Debug> Sender<T> {
    pub fn send(&self, msg: T) -> Result<(), SendError<T>> {
        let desc = format!("{msg:?}");
        sched::gate(sched::Gate::Send { chan: self.chan.id, msg: desc });
        // we are the only running thread now
        if !sched::receiver_alive(self.chan.id) {
            return Err(SendError(msg));
        }
        self.chan.queue.lock().unwrap().push_back(msg);
        sched::queue_len_changed(self.chan.id, 1);
        Ok(())
    }
}
impl<T> Clone for Sender<T> {
    fn clone(&self) -> Self {
        sched::sender_count_changed(self.chan.id, 1);
        Sender { chan: self.chan.clone() }
    }
}
impl<T> Drop for Sender<T> {
    fn drop(&mut self) {
        sched::sender_count_changed(self.chan.id, -1);
    }
}

impl<T> Receiver<T> {
    pub fn recv(&self) -> Result<T, RecvError> {
        sched::gate(sched::Gate::Recv { chan: self.chan.id });
        match self.chan.queue.lock().unwrap().pop_front() {
            Some(m) => {
                sched::queue_len_changed(self.chan.id, -1);
                Ok(m)
            }
            None => Err(RecvError), // granted only when all senders are gone (or on abort)
        }
    }
    pub fn try_recv(&self) -> Result<T, TryRecvError> {
        sched::gate(sched::Gate::TryRecv { chan: self.chan.id });
        match self.chan.queue.lock().unwrap().pop_front() {
            Some(m) => {
                sched::queue_len_changed(self.chan.id, -1);
                Ok(m)
            }
            None => {
                if sched::sender_count(self.chan.id) == 0 {
                    Err(TryRecvError::Disconnected)
                } else {
                    Err(TryRecvError::Empty)
                }
            }
        }
    }
    pub fn try_iter(&self) -> TryIter<'_, T> {
        TryIter { rx: self }
    }
    pub fn iter(&self) -> Iter<'_, T> {
        Iter { rx: self }
    }
    pub fn is_empty(&self) -> bool {
        sched::gate(sched::Gate::TryRecv { chan: self.chan.id });
        self.chan.queue.lock().unwrap().is_empty()
    }
    pub fn len(&self) -> usize {
        sched::gate(sched::Gate::TryRecv { chan: self.chan.id });
        self.chan.queue.lock().unwrap().len()
    }
}
impl<T> Drop for Receiver<T> {
    fn drop(&mut self) {
        sched::receiver_dropped(self.chan.id);
    }
}
pub struct TryIter<'a, T> {
    rx: &'a Receiver<T>,
}
impl<T> Iterator for TryIter<'_, T> {
    type Item = T;
    fn next(&mut self) -> Option<T> {
        self.rx.try_recv().ok()
    }
}
pub struct Iter<'a, T> {
    rx: &'a Receiver<T>,
}
impl<T> Iterator for Iter<'_, T> {
    type Item = T;
    fn next(&mut self) -> Option<T> {
        self.rx.recv().ok()
    }
}
impl<T> IntoIterator for Receiver<T> {
    type Item = T;
    type IntoIter = IntoIter<T>;
    fn into_iter(self) -> IntoIter<T> {
        IntoIter { rx: self }
    }
}
pub struct IntoIter<T> {
    rx: Receiver<T>,
}
impl<T> Iterator for IntoIter<T> {
    type Item = T;
    fn next(&mut self) -> Option<T> {
        self.rx.recv().ok()
    }
}
