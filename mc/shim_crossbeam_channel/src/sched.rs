//! The controller: owns every scheduling decision of one execution.
//!
//! Managed threads are in one of three states: Running, AtGate (parked, waiting
//! for a grant) or Finished. A decision is taken only when no thread is Running:
//! the enabled gates (at most one per thread) are listed in canonical order
//! (the thread that ran last first, then ascending thread id), one is chosen by
//! the schedule prefix (default: index 0) and granted. The whole execution is
//! therefore a deterministic function of the list of choices.
//!
//! Thread creation and join are made visible by the harness binary, which
//! interposes `pthread_create` / `pthread_join` and calls `thread_created`,
//! `thread_started`, `thread_finished` and `gate(Gate::Join)`.

use std::cell::Cell;
use std::sync::{Arc, Condvar, Mutex};

#[derive(Clone, Debug, PartialEq, Eq)]
pub enum Gate {
    Send { chan: usize, msg: String },
    Recv { chan: usize },
    TryRecv { chan: usize },
    Join { target: usize },
}

#[derive(Clone, Debug, PartialEq, Eq)]
enum TState {
    Running,
    AtGate { gate: Gate, granted: bool },
    Finished,
}

#[derive(Clone, Debug)]
struct ThreadInfo {
    state: TState,
    native: u64,
}

#[derive(Clone, Debug, Default)]
struct ChanState {
    queue_len: i64,
    senders: i64,
    receiver_alive: bool,
}

/// One granted gate of the execution.
#[derive(Clone, Debug, PartialEq, Eq)]
pub struct TraceEvent {
    pub step: u64,
    pub thread: usize,
    pub gate: Gate,
    /// value of the step counter when the thread arrived at the gate
    pub arrived_at: u64,
}

#[derive(Clone, Debug, PartialEq, Eq)]
pub struct Decision {
    /// threads with an enabled gate, canonical order
    pub enabled: Vec<usize>,
    pub chosen: usize,
    /// was the thread that ran last among the enabled ones (then index 0 is "no preemption")
    pub last_enabled: bool,
}

#[derive(Clone, Debug, Default)]
pub struct Report {
    pub decisions: Vec<Decision>,
    pub trace: Vec<TraceEvent>,
    pub marks: Vec<(String, u64)>,
    pub deadlock: Option<String>,
    pub horizon_hit: bool,
    pub divergence: Option<String>,
    pub threads: usize,
}

struct Inner {
    active: bool,
    threads: Vec<ThreadInfo>,
    chans: Vec<ChanState>,
    step: u64,
    prefix: Vec<usize>,
    last_run: Option<usize>,
    arrivals: Vec<u64>,
    report: Report,
    horizon: usize,
    aborting: bool,
    /// one condition variable per thread: only the granted thread is woken
    cvs: Vec<Arc<Condvar>>,
}

static CTL: Mutex<Option<Inner>> = Mutex::new(None);

thread_local! {
    static MY_ID: Cell<Option<usize>> = const { Cell::new(None) };
}

pub fn my_id() -> Option<usize> {
    MY_ID.with(|c| c.get())
}
pub fn is_managed() -> bool {
    my_id().is_some() && CTL.lock().unwrap().as_ref().map(|i| i.active).unwrap_or(false)
}

/// Begin an execution: the calling thread becomes managed thread 0 ("main").
pub fn begin(prefix: Vec<usize>, horizon: usize) {
    let mut g = CTL.lock().unwrap();
    *g = Some(Inner {
        active: true,
        threads: vec![ThreadInfo { state: TState::Running, native: 0 }],
        chans: Vec::new(),
        step: 0,
        prefix,
        last_run: Some(0),
        arrivals: vec![0],
        report: Report::default(),
        horizon,
        aborting: false,
        cvs: vec![Arc::new(Condvar::new())],
    });
    MY_ID.with(|c| c.set(Some(0)));
}

/// End an execution: main is finished; wait until every other thread has
/// finished (or a deadlock was diagnosed), then return the report.
pub fn end() -> Report {
    let mut g = CTL.lock().unwrap();
    {
        let inner = g.as_mut().expect("no execution");
        inner.threads[0].state = TState::Finished;
        schedule_if_quiescent(inner);
    }
    loop {
        let inner = g.as_mut().unwrap();
        let all_done = inner.threads.iter().all(|t| t.state == TState::Finished);
        if all_done {
            break;
        }
        let cv = inner.cvs[0].clone();
        g = cv.wait(g).unwrap();
    }
    let mut inner = g.take().unwrap();
    inner.active = false;
    inner.report.threads = inner.threads.len();
    MY_ID.with(|c| c.set(None));
    inner.report
}

/// A harness annotation: records a label together with the current step.
pub fn mark(label: &str) {
    let mut g = CTL.lock().unwrap();
    if let Some(inner) = g.as_mut() {
        let s = inner.step;
        inner.report.marks.push((label.to_string(), s));
    }
}

pub fn new_channel() -> usize {
    let mut g = CTL.lock().unwrap();
    let inner = g.as_mut().expect("channel created outside of an execution");
    inner.chans.push(ChanState { queue_len: 0, senders: 1, receiver_alive: true });
    inner.chans.len() - 1
}
pub fn queue_len_changed(chan: usize, d: i64) {
    if let Some(inner) = CTL.lock().unwrap().as_mut() {
        if let Some(c) = inner.chans.get_mut(chan) {
            c.queue_len += d;
        }
    }
}
pub fn sender_count_changed(chan: usize, d: i64) {
    if let Some(inner) = CTL.lock().unwrap().as_mut() {
        if let Some(c) = inner.chans.get_mut(chan) {
            c.senders += d;
        }
    }
}
pub fn sender_count(chan: usize) -> i64 {
    CTL.lock().unwrap().as_ref().and_then(|i| i.chans.get(chan).map(|c| c.senders)).unwrap_or(0)
}
pub fn receiver_dropped(chan: usize) {
    if let Some(inner) = CTL.lock().unwrap().as_mut() {
        if let Some(c) = inner.chans.get_mut(chan) {
            c.receiver_alive = false;
        }
    }
}
pub fn receiver_alive(chan: usize) -> bool {
    CTL.lock().unwrap().as_ref().and_then(|i| i.chans.get(chan).map(|c| c.receiver_alive)).unwrap_or(false)
}

/// Called by the creating (managed, running) thread: reserves a thread id.
pub fn thread_created() -> usize {
    let mut g = CTL.lock().unwrap();
    let inner = g.as_mut().expect("thread created outside of an execution");
    inner.threads.push(ThreadInfo { state: TState::Running, native: 0 });
    inner.arrivals.push(0);
    inner.cvs.push(Arc::new(Condvar::new()));
    inner.threads.len() - 1
}
pub fn set_native(id: usize, native: u64) {
    if let Some(inner) = CTL.lock().unwrap().as_mut() {
        inner.threads[id].native = native;
    }
}
pub fn id_of_native(native: u64) -> Option<usize> {
    CTL.lock().unwrap().as_ref().and_then(|i| i.threads.iter().position(|t| t.native == native && native != 0))
}
/// Called first thing by the new thread.
pub fn thread_started(id: usize) {
    MY_ID.with(|c| c.set(Some(id)));
}
/// Called last thing by a managed thread.
pub fn thread_finished() {
    let Some(id) = my_id() else { return };
    {
        let mut g = CTL.lock().unwrap();
        if let Some(inner) = g.as_mut() {
            inner.threads[id].state = TState::Finished;
            schedule_if_quiescent(inner);
            if inner.threads.iter().all(|t| t.state == TState::Finished) {
                inner.cvs[0].notify_one();
            }
        }
    }
    MY_ID.with(|c| c.set(None));
}

fn enabled(inner: &Inner, gate: &Gate) -> bool {
    if inner.aborting {
        // let everything drain: joins still wait for their target
        return match gate {
            Gate::Join { target } => inner.threads[*target].state == TState::Finished,
            _ => true,
        };
    }
    match gate {
        Gate::Send { .. } | Gate::TryRecv { .. } => true,
        Gate::Recv { chan } => {
            let c = &inner.chans[*chan];
            c.queue_len > 0 || c.senders <= 0
        }
        Gate::Join { target } => inner.threads[*target].state == TState::Finished,
    }
}

/// If no thread is running: take the next decision (grant one enabled gate).
fn schedule_if_quiescent(inner: &mut Inner) {
    if !inner.active {
        return;
    }
    if inner.threads.iter().any(|t| matches!(t.state, TState::Running) || matches!(t.state, TState::AtGate { granted: true, .. })) {
        return;
    }
    let mut cand: Vec<usize> = Vec::new();
    for (i, t) in inner.threads.iter().enumerate() {
        if let TState::AtGate { gate, granted: false } = &t.state {
            if enabled(inner, gate) {
                cand.push(i);
            }
        }
    }
    if cand.is_empty() {
        let waiting: Vec<String> = inner.threads.iter().enumerate().filter_map(|(i, t)| if let TState::AtGate { gate, .. } = &t.state { Some(format!("T{i}:{gate:?}")) } else { None }).collect();
        if !waiting.is_empty() && !inner.aborting {
            inner.report.deadlock = Some(format!("no enabled gate; waiting: {}", waiting.join(", ")));
            // abort mode: grant everything that is not a join so that threads can drain and exit
            inner.aborting = true;
            schedule_if_quiescent(inner);
        }
        return;
    }
    // canonical order: the thread that ran last first (continuing it is not a preemption)
    cand.sort();
    let mut last_enabled = false;
    if let Some(l) = inner.last_run {
        if let Some(p) = cand.iter().position(|c| *c == l) {
            let x = cand.remove(p);
            cand.insert(0, x);
            last_enabled = true;
        }
    }
    let pos = inner.report.decisions.len();
    let mut choice = if inner.aborting { 0 } else { inner.prefix.get(pos).copied().unwrap_or(0) };
    if choice >= cand.len() {
        inner.report.divergence = Some(format!("decision {pos}: schedule asks for choice {choice} but only {} gates are enabled", cand.len()));
        choice = 0;
    }
    if !inner.aborting {
        inner.report.decisions.push(Decision { enabled: cand.clone(), chosen: choice, last_enabled });
        if inner.report.decisions.len() > inner.horizon {
            inner.report.horizon_hit = true;
            inner.aborting = true;
        }
    }
    let t = cand[choice];
    inner.step += 1;
    let step = inner.step;
    if let TState::AtGate { gate, granted } = &mut inner.threads[t].state {
        *granted = true;
        let ev = TraceEvent { step, thread: t, gate: gate.clone(), arrived_at: inner.arrivals[t] };
        if !inner.aborting {
            inner.report.trace.push(ev);
        }
    }
    inner.cvs[t].notify_one();
    inner.last_run = Some(t);
}

/// Park at a gate until the controller grants it.
pub fn gate(gate: Gate) {
    let Some(id) = my_id() else {
        panic!("shim channel used by an unmanaged thread");
    };
    let mut g = CTL.lock().unwrap();
    {
        let Some(inner) = g.as_mut() else { return };
        if !inner.active {
            return;
        }
        inner.arrivals[id] = inner.step;
        inner.threads[id].state = TState::AtGate { gate, granted: false };
        schedule_if_quiescent(inner);
    }
    loop {
        let cv = {
            let inner = g.as_mut().unwrap();
            if let TState::AtGate { granted: true, .. } = inner.threads[id].state {
                inner.threads[id].state = TState::Running;
                return;
            }
            inner.cvs[id].clone()
        };
        g = cv.wait(g).unwrap();
    }
}
