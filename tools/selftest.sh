#!/bin/sh
# tools/selftest.sh <ID> [quick|thorough]
# Detection self-test: runs check <ID> against a scratch copy of /repo for every patch in
# /verif/mutations/<ID>/*.diff (files starting with 00_ are skipped) and once unpatched.
# Expected: exit 1 for every mutant, exit 0 unpatched. Writes /verif/mutations/<ID>/RESULTS.txt.
id=$1; tier=${2:-quick}
slot=selftest-$id
out=/verif/mutations/$id/RESULTS.txt
: > "$out.tmp"
fail=0
for p in /verif/mutations/$id/*.diff; do
  case "$(basename "$p")" in 00_*) continue;; esac
  /verif/tools/mutant_run.sh "$slot" "$p" "$id" "$tier" --keep > /tmp/verif-mut-$slot.log 2>&1; rc=$?
  keys=$(grep -o 'key=.*' /tmp/verif-mut-$slot.log | sort | uniq -c | sort -rn | head -3 | tr '\n' ';')
  case $rc in 1) verdict=CAUGHT;; 0) verdict=MISSED; fail=1;; *) verdict="MACHINERY(rc=$rc)"; fail=1;; esac
  echo "$verdict $(basename "$p") :: $keys" | tee -a "$out.tmp"
done
/verif/tools/mutant_run.sh "$slot" none "$id" "$tier" > /tmp/verif-mut-$slot.log 2>&1; rc=$?
[ $rc -eq 0 ] && echo "CLEAN unpatched copy: exit 0" | tee -a "$out.tmp" || { echo "ALARM-ON-CLEAN unpatched copy: exit $rc" | tee -a "$out.tmp"; fail=1; }
rm -rf /tmp/verif-mut-$slot /tmp/verif-mut-$slot.log
mv "$out.tmp" "$out"
exit $fail
