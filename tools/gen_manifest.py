#!/usr/bin/env python3
"""Regenerates /verif/MANIFEST.json from the table below (single source of truth)."""
import json, os, subprocess
V = "/verif"
props = [json.loads(l) for l in open(f"{V}/properties.jsonl")]
ids = [p["id"] for p in props]

MC = "model_checking"
# id -> (category, technique, level text, level note, design_ref)
CHECKS = {
 "C01": (MC, "exhaustive bounded input-space enumeration (all 1-byte operand pairs, boundary alphabet for wider) against an independent reference semantics",
         "Every (operation, width, operand pair) of the stated finite alphabet is pushed through Bitvector::*, BitvectorDomain::* and Expression::bytesize and compared with an independent P-Code reference; exhaustive for 1-byte operands, boundary-alphabet pairs for 2/4/8/16 bytes.",
         "Trusted: the reference semantics in mcx::refsem::ops (self-checked against native u8/i8 arithmetic and hand-derived golden vectors at start-up). Nothing outside the alphabet is covered.",
         "DESIGN.md §C01"),
}
NOT_BUILT = "check not built yet (work in progress; see DESIGN.md for the planned model-checking design)"
NA = {}

checks = []
for i in ids:
    if i in CHECKS:
        cat, tech, text, note, ref = CHECKS[i]
        checks.append({
            "property_id": i,
            "quick_cmd": f"./check {i} quick",
            "thorough_cmd": f"./check {i} thorough",
            "evidence_file": f"/verif/evidence/{i}.json",
            "replay_cmd_template": f"./check {i} --replay {{path}}",
            "engine": "mcx",
            "level_claimed": {"category": cat, "text": text, "design_ref": ref},
            "level_note": note,
            "technique": tech,
        })
na = [{"property_id": i, "reason": NA.get(i, NOT_BUILT)} for i in ids if i not in CHECKS]
hook_commits = []
try:
    out = subprocess.run(["git", "-C", "/repo", "log", "--format=%h %s"], capture_output=True, text=True).stdout
    hook_commits = [l.split()[0] for l in out.splitlines() if l.split(" ", 1)[1].startswith("verif-hook:")]
except Exception:
    pass
m = {
 "version": 1,
 "setup_cmd": "cd /verif/mc && CARGO_NET_OFFLINE=true cargo build --release --offline --bins",
 "hooks": {
   "guard": "--cfg fkie_cad_cwe_checker_verif",
   "enable": "rustflags = [\"--cfg\", \"fkie_cad_cwe_checker_verif\"] in /verif/mc/.cargo/config.toml (applies to every harness build of /repo/src/cwe_checker_lib and of the CLI)",
   "baseline_off_cmd": "cd /repo && cargo test --workspace --no-fail-fast --offline",
   "source_commits": hook_commits,
   "add_only": True,
 },
 "engines": [
   {"name": "mcx", "path": "/verif/mc/mcx", "serves_properties": sorted(CHECKS), "kind_free_text": "in-house exhaustive enumerator / explicit-state BFS / DFS schedule explorer; every explored element is executed on the real code and judged by an independent reference model"},
 ],
 "checks": checks,
 "not_applicable": na,
 "notes": "Exit codes of every check: 0 held, 1 violation (VIOLATION line + replay file), 2 machinery error (never a verdict). Genuine defects: /verif/known_findings.json.",
}
json.dump(m, open(f"{V}/MANIFEST.json", "w"), indent=1)
print("claimed:", sorted(CHECKS), "not claimed:", len(na))
