#!/usr/bin/env python3
"""Regenerates /verif/MANIFEST.json from the table below (single source of truth)."""
import json, os, subprocess
V = "/verif"
props = [json.loads(l) for l in open(f"{V}/properties.jsonl")]
ids = [p["id"] for p in props]

MC = "model_checking"
# id -> (category, technique, level text, level note, design_ref)
CHECKS = {
 "C01": (MC, "exhaustive bounded input-space enumeration (all 1-byte operand pairs, boundary alphabet for wider) against an independent reference semantics",
         "Every (operation, width, operand pair) of the stated finite alphabet is pushed through Bitvector::*, BitvectorDomain::* and Expression::bytesize and compared with an independent P-Code reference; exhaustive for 1-byte operands, boundary-alphabet pairs for 2/4/8/16 bytes.",
         "Trusted: the reference semantics in mcx::refsem::ops (self-checked against native u8/i8 arithmetic and hand-derived golden vectors at start-up). Nothing outside the alphabet is covered.",
         "DESIGN.md §C01"),
 "C02": (MC, "exhaustive bounded enumeration of abstract interval values (all pairs over a 1-byte interval alphabet with widening-hint configurations, every concrete member checked through 256-bit sets; boundary alphabets for 2/4/8 bytes) against the independent P-Code reference",
         "For every pair of 1-byte intervals of the alphabet (thorough: plus all 170 700 well-formed 1-byte intervals for unary ops/casts/subpiece) and every operation, the real transfer function is called once and every concrete member pair is pushed through the reference semantics and tested for membership; produced values are read back through serde and checked for exactly the well-formedness the statement lists.",
         "Trusted: mcx::refsem::ops and the gamma/bitset code in shared/intervals.rs. Widths 2/4/8 are checked on a member alphabet when an interval has more than 256 members.",
         "DESIGN.md §C02"),
 "C03": (MC, "exhaustive bounded enumeration of all pairs of abstract values per domain, judged by concretisation",
         "All pairs over explicitly enumerated families of BitvectorDomain, IntervalDomain (with widening hints/delays), DataDomain<IntervalDomain>, Taint, DomainMap under the three merge strategies (merge and merge_with) and MemRegion values; gamma(a) u gamma(b) must be contained in gamma(merge(a,b)); stability of re-merging; same width.",
         "Trusted: the concretisation functions in shared/merge_gamma.rs. Widening hints are not part of gamma.",
         "DESIGN.md §C03"),
 "C04": (MC, "exhaustive bounded enumeration (every 1-byte interval of the alphabet x hint configuration x every bound 0..255 x the five refinement operations; all pairs for intersect; boundary alphabets for wider values; DataDomain values) with a brute-force satisfying-set oracle",
         "S = members satisfying the condition is computed by brute force over the 256-bit member set; Ok(R) must contain S and be well-formed, Err is allowed only if S is empty; for DataDomain only the absolute part may shrink.",
         "Trusted: mcx::refsem::ops, shared/intervals.rs. One known finding (intersect gives up with an overflow error for huge strides).",
         "DESIGN.md §C04"),
 "C06": (MC, "exhaustive bounded enumeration of brick sequences / character-inclusion values with bounded-language concretisation",
         "All BricksDomain values up to the brick bound over string sets of {'', a, b, ab} and the (min,max) alphabet incl. u32::MAX, all pairs for merge/widen/append, all CharacterInclusionDomain values over a 3-letter alphabet; languages cut at length 6 must be preserved by normalize and over-approximated by append/merge.",
         "Trusted: the bounded-language model in shared/bricks_lang.rs (equality under a common length cut is exact).",
         "DESIGN.md §C06"),
 "C07": (MC, "exhaustive bounded enumeration of labelled graphs x all node-priority permutations x start configurations x step bounds, against a naive Kleene least-fixpoint reference",
         "All labelled multigraphs within the stated node/edge bounds over an alphabet of monotone edge functions (incl. blocking and guard edges), every priority permutation plus the solver's own order, compute() and compute_with_max_steps(1..6); plus worklist-permutation checks and solver runs on every CFG of a tiny-program family.",
         "Trusted: the Kleene reference and closedness test in shared/c07_model.rs. Lattice = subsets of {0,1,2}.",
         "DESIGN.md §C07"),
 "C08": (MC, "exhaustive bounded enumeration of multi-function programs (terminator alphabet x all targets incl. other functions' blocks), real normalize_basic + get_program_cfg against an independent specification of the expected node/edge multiset",
         "Every program of the weight-bounded space is normalized by the real code, the real CFG is built and compared as multisets of nodes and labelled edges with a specification derived from the program text and the property statement; entry-node map checked.",
         "Trusted: the specification in c08.rs/shared/progspace.rs. Blocks end in 0, 1 or [CBranch, Branch] jumps.",
         "DESIGN.md §C08"),
 "C09": (MC, "exhaustive bounded enumeration of raw programs with injected irregularities (dangling targets, duplicated TIDs at every position, shared blocks, non-returning callees, empty functions)",
         "Every raw program of the space, bare, with every single irregularity and every pair (small shapes), through the real normalize_basic; the listed IR invariants, no panic in normalization or CFG construction, and idempotence are checked.",
         "Trusted: invariant checks in c09.rs. Extractor TID name spaces assumed.",
         "DESIGN.md §C09"),
 "C13": (MC, "exhaustive bounded enumeration of single-function programs (CFG skeletons x slot forms x condition forms) analysed by the real pipeline and executed by an independent interpreter from every initial state of a state alphabet",
         "Every program of the space is normalized, its signatures and pointer inference computed by the real code, and executed concretely from every combination of the initial-value alphabet for the registers it can read; at every reached block start the analysis must have a state and every register's concrete value must lie in the concretisation of its abstract value (parameter ids as entry values, stack id as entry SP); defs treated as certain NULL dereference must not complete.",
         "Trusted: props::ir_interp, the gamma reader in shared/c13_gamma.rs. Runs that access addresses in (-1024,1024) or program-computed integer addresses stop and prove nothing (counted).",
         "DESIGN.md §C13"),
 "C14": (MC, "exhaustive bounded enumeration of two-function programs (skeletons x slot alphabet x callee family) through the real signature analysis, against an explicit-state path-exploring reference (one-sided)",
         "Every program goes through the real normalize / CFG / compute_function_signatures; the reference explores (block, register tokens, frame slots) and computes the parameter registers whose entry value can be read; that set must be contained in the reported parameters.",
         "Trusted: the path model in shared/c14_model.rs (every modelling choice weakens the demand). One known finding (reads on non-returning paths of an internal callee are not propagated to the caller).",
         "DESIGN.md §C14"),
 "C15": (MC, "exhaustive bounded enumeration of programs with allocation calls through the real pipeline and CWE476 check, against explicit-state path exploration (L <= reported <= P sandwich)",
         "Every program runs through normalize, CFG, signatures, pointer inference and the real check with the shipped configuration; per source the reference explores (block, carrying set) for the path-based statement P and the merged-set lower bound L; reports outside [L,P] are violations, the join-merge gap is a known finding.",
         "Trusted: the path model in shared/c15_model.rs. Programs where the value flows through memory are out of scope (skipped, counted).",
         "DESIGN.md §C15"),

 "C16": (MC, "exhaustive bounded enumeration of extern tables x call-site layouts x configurations through the real CWE_MODULE.run entry points, against a transcription of the statement",
         "All extern tables of <=4 symbols over an 8-symbol universe, call-site layouts over two functions, all configuration lists of <=2 entries; warnings compared as multisets.",
         "Trusted: the oracle in c16.rs. Symbol names unique per table; wording of descriptions not judged.",
         "DESIGN.md §C16"),
 "C17": (MC, "exhaustive bounded enumeration of function CFGs over a terminator alphabet (calls with and without return target) through the real checks, against reference reachability",
         "Every function of <=3 (thorough 4) blocks over the terminator alphabet, 8+ callee shapes, import table variants, two normalization variants; CWE367 under 6 pair configurations, CWE243 under 3 privilege lists; no panic on any program.",
         "Trusted: the reachability oracle in shared/c17_model.rs (strict/liberal reading of 'callee returns'; only the unambiguous cases are judged).",
         "DESIGN.md §C17"),
 "C18": (MC, "exhaustive bounded enumeration of def sequences computing call parameters, through the real pipeline and checks, against a concrete constant-propagation reference",
         "Every def sequence of length <=3 (thorough 4) over an 80-letter alphabet followed by calls to umask / malloc / a 2-parameter symbol; whenever the reference yields constants the umask and sizeof decisions are required.",
         "Trusted: the constant propagation in shared/c18_model.rs; unknown values are never judged.",
         "DESIGN.md §C18"),
 "C21": (MC, "exhaustive bounded enumeration of generated P-Code projects x ELF variants x check selections through the real CLI binary (--pcode-raw), judged on exit status, stderr and the JSON output",
         "Every project of a bounded family (1-3 functions from body templates, extern-table variants, ELF variants incl. kernel-module objects) is analysed by the real cwe_checker binary with the shipped configuration under default, all-checks and single-check selections; exit status 0, clean stderr, well-formed and canonically sorted JSON with known check names/versions are required.",
         "Trusted: the P-Code/ELF generators in shared/cli_*.rs; --pcode-raw replaces only the Ghidra subprocess. Warnings named CWE125/CWE787/CWE415 and the Memory check's CWE476 are accepted as documented behaviour.",
         "DESIGN.md §C21"),
 "C22": (MC, "exhaustive enumeration of check selections (default, kernel-module default, every single name, all pairs, all names, complements, duplicates, trailing comma, empty) through the real CLI built with the VERIF-RUN hook",
         "For inputs that make several syntactic checks fire, the executed set reported by the hook must equal the requested set, warnings must come from executed checks only and be identical to the all-checks run per check; --module-versions must list every module once.",
         "Trusted: the hook commit 372b0af (additive, cfg-guarded). An unknown check name is rejected by a panic, which the statement allows (not silently ignored).",
         "DESIGN.md §C22"),
 "C23": ("exploration", "bounded exploration of owned hash seeds: every C21 input is analysed under K seeds (LD_PRELOAD getrandom shim makes HashMap iteration order a function of the seed), outputs must be byte-identical; the thread-scheduling half is decided exhaustively by C25",
         "Every input of the C21 family under 8 (quick) / 64 (thorough) owned hash seeds with default and all-checks selections; stdout must be byte-identical across seeds. Not exhaustive: the seed space (2^128) cannot be enumerated, so a divergence that needs a rare permutation can be missed.",
         "Trusted: the LD_PRELOAD shim (verified at start-up to change iteration order). exhaustive=false by construction.",
         "DESIGN.md §C23"),

 "C24": (MC, "exhaustive enumeration of all call graphs up to a size bound x all (source,target) pairs against a reachability-closure oracle",
         "All call graphs on <=3 functions (thorough 4, and 5 with unordered call pairs) with <=2 calls per function targeting any function, an extern, an indirect target or a missing TID; every ordered pair of functions is queried.",
         "Trusted: the bit-mask closure oracle in c24.rs.",
         "DESIGN.md §C24"),

 "C05": (MC, "explicit-state breadth-first search over operation histories on the real MemRegion (stateright, cross-counted against mcx::bfs) against a reference cell store; all ordered pairs of reached regions for merge; re-seeded search from merge results",
         "All operation sequences up to the depth bound over the action alphabet (add/insert/remove/merge_write_top/mark_interval/mark_all/offset shift, sizes 1,2,4,8, small offset window) for T = BitvectorDomain, DataDomain<BitvectorDomain> and Taint; invariants (no overlap, no Top cell, iter/get/get_unsized agree with the reference) in every state; merge judged on all ordered pairs of reached regions exactly as the statement says; stateright and mcx::bfs unique-state/transition counts must be equal.",
         "Trusted: the reference cell store and the per-type value tables in shared/c05_model.rs. Bounded by depth, offset window and cell sizes.",
         "DESIGN.md §C05"),
 "C19": (MC, "exhaustive bounded enumeration of segment layouts x every address/size query against a byte-map reference",
         "Every image of 1-3 disjoint segments (adjacent or with gaps, both list orders, all r/w flag combinations, both byte orders, contents over a 4-letter alphabet incl. NUL and invalid UTF-8) and all small bare-metal configurations; every address around the segments x read sizes 1,2,4,8, string reads, writeability/readability, ro-data pointers, interval queries.",
         "Trusted: the byte-map oracle in c19.rs. Cases the statement leaves open (segments that are neither readable nor writable, interval end conventions, strings in writable segments) are accepted both ways and listed as assumptions.",
         "DESIGN.md §C19"),
 "C20": (MC, "exhaustive bounded enumeration of format strings (all conversion specifications; all token sequences up to a length bound) against an independent tokenizer and the documented type table",
         "All 2025 conversion specifications of the supported grammar in 8 literal/escape contexts under 2 size tables, and all sequences of <=4 (thorough 5) tokens over literals that look like flags/digits/length modifiers, the %% escape and 12 representative specifications.",
         "Trusted: the tokenizer and type table in c20.rs (the generator's token list is cross-checked against the independent tokenizer on every case).",
         "DESIGN.md §C20"),

 "C10": (MC, "exhaustive bounded program-space enumeration (expression trees, def sequences x terminators, CFG skeletons x slot alphabets) with differential execution by an independent reference interpreter",
         "Every expression tree up to depth 2 (plus deeper templates) through the real trivial-operation rewriter under every valuation of a value alphabet; every single-block program (def sequences x terminators x observers) and every CFG-skeleton program (slot alphabets x condition variants) through the real normalize_basic/normalize_optimize, both versions run by an independent interpreter from every initial state x call environment; traces and call/return/dead-end snapshots must agree.",
         "Trusted: props::ir_interp + mcx::refsem::ops (independent of the repository's evaluation code). Bounded by the alphabets; loops are cut by block fuel (prefix comparison). P-Code temporaries are assumed dead across calls (a call ends the machine instruction).",
         "DESIGN.md §C10"),
 "C11": (MC, "exhaustive bounded enumeration of raw P-Code blocks, each executed by an independent byte-level P-Code interpreter and, after the real lifting, by an independent IR interpreter",
         "Every single P-Code instruction over a register table with nested, top-aligned, middle and same-name-smaller sub-registers, temporaries, constants and RAM operands; all (sub-register write|load) x (cast|copy) pairs; every jump kind with register/sub-register/temporary/RAM operands; triples over a 16-letter alphabet. Final base-register bytes, load/store sequences and block exits must agree in every initial state.",
         "Trusted: props::pcode::PMachine, props::ir_interp, mcx::refsem::ops. Little-endian register file; floating point ops uninterpreted; only lifting (normalize + into_ir_project) is judged here, IR-level optimization is C10.",
         "DESIGN.md §C11"),
 "C12": (MC, "exhaustive bounded enumeration of raw P-Code blocks (C11 space, unconnected and chained), typing walk after lifting and after every normalization pass",
         "All blocks of the C11 space, batched into functions once unconnected and once chained block-to-block, are lifted and run through normalize_basic and each pass of normalize_optimize; after every stage every Def/Jmp is checked against the statement's sizing rules.",
         "Trusted: the typing walk in c12.rs (direct transcription of the statement). Extensions accepted with target >= source size; condition and indirect-target sizes only reported.",
         "DESIGN.md §C12"),
 "C25": (MC, "stateless DFS over all thread schedules (no preemption bound) of a small harness running the unmodified utils/log.rs against a scheduler-controlled channel, with pthread_create/join interposition",
         "All grant sequences of every configuration of the harness family (main as single producer; 1-2 producer threads with <=2 messages; joined or not before collection; late sender outliving collection; collect() or drop) are executed on the real log.rs source compiled against a scheduler-controlled FIFO channel; each execution is judged from the recorded gate order; deadlock/livelock are detected; determinism is asserted by replaying schedules.",
         "Trusted: the channel model (linearizable FIFO with crossbeam's disconnect semantics; checked sequentially against the real library with real crossbeam), pthread interposition making spawn/join visible. Bounded by the harness family.",
         "DESIGN.md §C25"),
}
# entries present in CHECKS but not yet reviewed/claimed
PENDING = set()
for _k in PENDING:
    CHECKS.pop(_k, None)
NOT_BUILT = "check not built yet (work in progress; see DESIGN.md for the planned model-checking design)"
NA = {}

checks = []
for i in ids:
    if i in CHECKS:
        cat, tech, text, note, ref = CHECKS[i]
        checks.append({
            "property_id": i,
            "quick_cmd": f"./check {i} quick",
            "thorough_cmd": f"./check {i} thorough",
            "evidence_file": f"/verif/evidence/{i}.json",
            "replay_cmd_template": f"./check {i} --replay {{path}}",
            "engine": {"C05": "stateright", "C25": "c25-scheduler", "C21": "cli-runner", "C22": "cli-runner", "C23": "cli-runner"}.get(i, "mcx"),
            "level_claimed": {"category": cat, "text": text, "design_ref": ref},
            "level_note": note,
            "technique": tech,
        })
na = [{"property_id": i, "reason": NA.get(i, NOT_BUILT)} for i in ids if i not in CHECKS]
hook_commits = []
try:
    out = subprocess.run(["git", "-C", "/repo", "log", "--format=%h %s"], capture_output=True, text=True).stdout
    hook_commits = [l.split()[0] for l in out.splitlines() if l.split(" ", 1)[1].startswith("verif-hook:")]
except Exception:
    pass
m = {
 "version": 1,
 "setup_cmd": "cd /verif/mc && CARGO_NET_OFFLINE=true cargo build --release --offline --workspace --bins && mkdir -p /verif/work && RUSTFLAGS=\"--cfg fkie_cad_cwe_checker_verif\" CARGO_TARGET_DIR=/verif/work/target-cli CARGO_NET_OFFLINE=true cargo build --release --offline --manifest-path /repo/Cargo.toml -p cwe_checker",
 "hooks": {
   "guard": "--cfg fkie_cad_cwe_checker_verif",
   "enable": "rustflags = [\"--cfg\", \"fkie_cad_cwe_checker_verif\"] in /verif/mc/.cargo/config.toml (applies to every harness build of /repo/src/cwe_checker_lib and of the CLI)",
   "baseline_off_cmd": "cd /repo && cargo test --workspace --no-fail-fast --offline",
   "source_commits": hook_commits,
   "add_only": True,
 },
 "engines": [
   {"name": "mcx", "path": "/verif/mc/mcx", "serves_properties": sorted(CHECKS), "kind_free_text": "in-house engine: index-addressed exhaustive enumeration of bounded input/program spaces sharded over worker threads, explicit-state BFS with canonical-state de-duplication, counters/evidence/replay/known-findings; every explored element is executed on the real code and judged by an independent reference model (mcx::refsem, props::ir_interp, props::pcode)"},
   {"name": "stateright", "path": "cargo registry (stateright 0.31)", "serves_properties": ["C05"], "kind_free_text": "explicit-state model checker; the C05 model's transitions call the real MemRegion methods; unique-state and transition counts are cross-checked against mcx::bfs"},
   {"name": "c25-scheduler", "path": "/verif/mc/shim_crossbeam_channel/src/sched.rs + /verif/mc/c25_logmc", "serves_properties": ["C25"], "kind_free_text": "stateless DFS over all grant sequences of real OS threads running the unmodified utils/log.rs: channel operations are gates of a controller, pthread_create/pthread_join are interposed, deadlock detection, replay-determinism assertion"},
   {"name": "cli-runner", "path": "/verif/mc/props/src/shared/cli_run.rs + /verif/mc/preload/getrandom.c", "serves_properties": ["C21", "C22", "C23"], "kind_free_text": "runs the real cwe_checker binary (built from /repo with the hook cfg) on generated P-Code/ELF inputs; LD_PRELOAD shim owning the hash seeds for C23"},
 ],
 "checks": checks,
 "not_applicable": na,
 "notes": "Exit codes of every check: 0 held, 1 violation (VIOLATION line + replay file), 2 machinery error (never a verdict). Genuine defects: /verif/known_findings.json.",
}
json.dump(m, open(f"{V}/MANIFEST.json", "w"), indent=1)
print("claimed:", sorted(CHECKS), "not claimed:", len(na))
