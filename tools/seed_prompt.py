#!/usr/bin/env python3
"""Prints the prompt for an independent 'seeded change' sub-agent for one property and prepares its worktree."""
import json, sys, subprocess, os
pid = sys.argv[1]
p = [json.loads(l) for l in open('/verif/properties.jsonl') if json.loads(l)['id'] == pid][0]
wt = f"/tmp/seed-{pid}"
if not os.path.exists(wt):
    subprocess.run(["git", "-C", "/repo", "worktree", "add", "-q", "--detach", wt, "HEAD"], check=True)
os.makedirs(f"/tmp/seed-{pid}-out", exist_ok=True)
print(f"""You are given a scratch git worktree of the Rust project fkie-cad/cwe_checker (a static analyzer for binaries: lifts Ghidra P-Code to its own IR, runs abstract-interpretation fixpoints and CWE checkers) at {wt}. It is yours alone. Work ONLY inside {wt} and write your deliverables to {wt}-out/. Do not read or touch /repo or /verif. There is no network; build with `cargo ... --offline`. The machine is shared and heavily loaded, so builds are slow: build and test only what you need (`cargo test -p cwe_checker_lib --offline --lib` runs the project's 311 unit tests).

Here is a semantic property of the project that is supposed to hold:

  Title: {p['title']}
  Statement: {p['statement']}
  Quantified over: {p['quantifier']['text']}
  Code it is anchored in: {', '.join(p['anchors']['files'])}

Your task: make ONE realistic change to the project's non-test source code that BREAKS this property while (1) the project still compiles and (2) the existing test suite still passes unchanged (run it to be sure). The change should look like a plausible slip or 'optimisation' a developer could make in this code (an off-by-one, a swapped operand, a dropped case, a cache or shortcut that is wrong in a corner, two sites that each look fine alone), NOT sabotage and not something ordinary use would expose at once: it should need something specific to manifest (an unusual input, a particular combination or sequence of operations, a boundary value, a particular interleaving). Do not edit tests, build files or dependencies. Do NOT use `git stash` (the stash is shared with other worktrees of this repository and other people use it concurrently); use `git diff > file` and `git apply [-R] file` instead.

Also write a demonstration: a new Rust unit test (added by a separate patch, e.g. a `#[test]` inside a `#[cfg(test)] mod` of the relevant file, or a file under src/.../tests) that FAILS with your change and PASSES without it. Verify both directions yourself.

Deliverables in {wt}-out/:
  patch.diff  - `git diff` of the source change only (apply with `git apply` / `patch -p1` at the repository root)
  demo.diff   - `git diff` of the demonstration test only (applies independently of patch.diff)
  NOTES.md    - what the change breaks and why it still passes the suite; what exactly it needs in order to manifest (concrete failing input / sequence); the commands you ran and their results (suite with patch: pass; demo without patch: pass; demo with patch: fail)
Leave the worktree clean or dirty as you like; it will be deleted. Your final reply: a 5-line summary (file changed, nature of the change, what it needs to manifest, test results).""")
