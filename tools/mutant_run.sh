#!/bin/sh
# tools/mutant_run.sh <slot> <patch.diff|none> <ID> [quick|thorough] [--keep]
# Runs check <ID> against a scratch copy of /repo's working tree with <patch> applied.
# The scratch copy lives in /tmp/verif-mut-<slot>/ (repo copy, harness copy, target dir)
# and is removed afterwards unless --keep is given (use --keep for a batch in one slot,
# then `rm -rf /tmp/verif-mut-<slot>`). Evidence/replays go to /tmp/verif-mut-<slot>/out.
# Exit code = exit code of the check (0 held, 1 violation, 2 machinery), 3 = patch failed.
set -u
slot=$1; patch=$2; id=$3; tier=${4:-quick}; keep=${5:-}
root=/tmp/verif-mut-$slot
bin=$(echo "$id" | tr 'A-Z' 'a-z')
mkdir -p "$root/out"
rm -rf "$root/mc"
mkdir -p "$root/repo"
# sync the working tree (no build output); checksum-based and without preserving mtimes, so that
# exactly the files whose content changed get a fresh mtime and cargo rebuilds in both directions
rsync -rc --delete --exclude=/target --exclude=/.git /repo/ "$root/repo/"
if [ "$patch" != none ]; then
  (cd "$root/repo" && patch -p1 --no-backup-if-mismatch -s < "$patch") || { echo "patch failed"; exit 3; }
fi
cp -r /verif/mc "$root/mc"
sed -i "s#\"/repo/#\"$root/repo/#g" "$root/mc/"*/Cargo.toml
grep -rl '"/repo/' "$root/mc" --include=*.rs 2>/dev/null | xargs -r sed -i "s#\"/repo/#\"$root/repo/#g"
sed -i "s#target-dir = .*#target-dir = \"$root/target\"#" "$root/mc/.cargo/config.toml"
cd "$root/mc" || exit 2
export RUST_LIB_BACKTRACE=0 CARGO_NET_OFFLINE=true VERIF_OUT_DIR="$root/out" VERIF_REPO_DIR="$root/repo"
if ! cargo build --release --offline --bin "$bin" >"$root/build.log" 2>&1; then
  echo "MACHINERY-ERROR: mutant build failed"; tail -n 30 "$root/build.log"; rc=2
else
  "$root/target/release/$bin" "$tier"; rc=$?
fi
cd /
if [ "$keep" != "--keep" ]; then rm -rf "$root"; fi
exit $rc
