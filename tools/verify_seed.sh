#!/bin/sh
# tools/verify_seed.sh <ID> [tier]  -- confirm an independently written seeded change and run our check against it.
# Input: /tmp/seed-<ID>-out/{patch.diff,demo.diff,NOTES.md} and the scratch worktree /tmp/seed-<ID>.
# Output: /verif/seeded/<ID>/{patch.diff,demo.diff,NOTES.md,meta.json}; removes the worktree afterwards.
id=$1; tier=${2:-quick}
wt=/tmp/seed-$id; out=/tmp/seed-$id-out; dst=/verif/seeded/$id
[ -f $out/patch.diff ] || { echo "no patch for $id"; exit 2; }
cd $wt || exit 2
git checkout -q -- . ; git clean -fdq -e target
t() { cargo test -p cwe_checker_lib --offline --lib 2>&1 | grep -E "^test result" | head -1; }
git apply $out/patch.diff || { echo "patch does not apply"; exit 2; }
r1=$(t)                                   # suite with patch
git apply $out/demo.diff || { echo "demo does not apply"; exit 2; }
r2=$(t)                                   # suite + demo with patch: demo must fail
git apply -R $out/patch.diff
r3=$(t)                                   # suite + demo without patch: all pass
echo "with patch: $r1"; echo "patch+demo: $r2"; echo "demo only:  $r3"
cd /verif
/verif/tools/mutant_run.sh seed-$id $out/patch.diff $id $tier > /tmp/seed-$id-check.log 2>&1; rc=$?
keys=$(grep -o 'key=.*' /tmp/seed-$id-check.log | sort | uniq -c | sort -rn | head -5)
echo "check $id $tier exit=$rc"; echo "$keys"
mkdir -p $dst; cp $out/patch.diff $out/demo.diff $out/NOTES.md $dst/ 2>/dev/null
python3 - "$id" "$tier" "$rc" "$r1" "$r2" "$r3" "$keys" <<'PY'
import json,sys
id,tier,rc,r1,r2,r3,keys=sys.argv[1:8]
ok = (" 0 failed" in r1) and (" 1 failed" in r2 or "FAILED" in r2) and (" 0 failed" in r3)
meta={"property":id,"source":"independent sub-agent given only the property text and a scratch worktree",
 "needs_to_manifest":"see NOTES.md",
 "confirmed":{"suite_with_patch":r1,"suite_plus_demo_with_patch":r2,"suite_plus_demo_without_patch":r3,"confirmed_ok":ok},
 "our_check":{"command":f"tools/mutant_run.sh seed-{id} patch.diff {id} {tier}","exit":int(rc),"detected":int(rc)==1,"violation_keys":keys.splitlines()}}
json.dump(meta,open(f"/verif/seeded/{id}/meta.json","w"),indent=1)
print("confirmed_ok",ok,"detected",int(rc)==1)
PY
git -C /repo worktree remove --force $wt; rm -rf $out /tmp/seed-$id-check.log
