#!/bin/sh
# tools/run_seeds.sh [tier] [IDs...]  -- run every check against its independently seeded change(s).
# Writes /verif/seeded/RESULTS.txt (one line per seed: CAUGHT/MISSED + top violation keys).
tier=${1:-quick}; shift 2>/dev/null
ids=${*:-$(ls /verif/seeded | grep '^C')}
out=/verif/seeded/RESULTS.txt
[ -n "$*" ] || : > $out
for id in $ids; do
  d=/verif/seeded/$id
  chk=${id%%-*}          # C16-2 is the second seeded change for property C16
  p=$d/patch.diff; [ -f $d/patch_rebased.diff ] && p=$d/patch_rebased.diff
  /verif/tools/mutant_run.sh seedrun $p $chk $tier --keep > /tmp/seedrun-$id.log 2>&1; rc=$?
  keys=$(grep -o 'key=.*' /tmp/seedrun-$id.log | sort | uniq -c | sort -rn | head -3 | tr -s ' ' | tr '\n' ';')
  case $rc in 1) v=CAUGHT;; 0) v=MISSED;; *) v="MACHINERY(rc=$rc)";; esac
  echo "$v $id ($tier) :: $keys" | tee -a $out
  rm -f /tmp/seedrun-$id.log
done
rm -rf /tmp/verif-mut-seedrun
